"""C29 - rendering is repeatable and does not modify its inputs.

Spec: spec/Jinja.tla.  The render arguments and globals of a case are constants of the
specification (no action can change them: the frame condition is structural), and the
only state the engine keeps between renders is the cache of default modules; the action
`Again` renders the same program a second time in the same engine and TLC checks
C29_Repeatable (second result = first result) for every program x data.

Binding: every program is rendered by real jinja2 several times on one Environment in a
seeded random order interleaved with the other data assignments and with direct renders
of the case's other templates, and concurrently from 8-16 threads with a tiny switch
interval; every output must be the one the spec gives, and deep snapshots of the data,
the environment globals and the template globals must be unchanged afterwards.
"""
from __future__ import annotations

import copy
import random
import sys
import threading
from concurrent.futures import ProcessPoolExecutor

from .. import core, jgen, jrun
from .. import jast as J


def snap(v):
    """Deep, comparison-friendly snapshot of a data value."""
    if isinstance(v, J.Probe):
        return ("probe", v._jv_id, {k: snap(x) for k, x in vars(v).items() if not k.startswith("_jv_")},
                {k: snap(x) for k, x in v._jv_items.items()})
    if isinstance(v, J.RecFn):
        return ("fn", v.fid)
    if isinstance(v, (list, tuple)):
        return (type(v).__name__, [snap(x) for x in v])
    if isinstance(v, dict):
        return ("dict", [(snap(k), snap(x)) for k, x in v.items()])
    return (type(v).__name__, str(v))


def _work(args):
    core.use_repo()
    case, obs_by_d, seed, nthreads = args
    rnd = random.Random(seed)
    out, n = [], 0
    for envlabel, opts, how in (("sync", {}, "render"), ("async", {"enable_async": True}, "render")):
        env, srcs = jrun.make_env(case, **opts)
        g_before = {k: snap(v) for k, v in env.globals.items() if not callable(v) or isinstance(v, J.RecFn)}
        datas = {}
        for di in obs_by_d:
            log = []
            datas[di] = {k: J.to_py(v, case["objs"], log, {}) for k, v in case["datas"][di - 1].items()}
        before = {di: {k: snap(v) for k, v in d.items()} for di, d in datas.items()}
        judged = [di for di, o in obs_by_d.items() if o["err"] != "EXCLUDED"]
        if not judged:
            continue
        seq = judged * 3
        rnd.shuffle(seq)

        def render(di):
            try:
                tpl = (env.get_template(case["main"], globals={k: J.to_py(v, case["objs"], [], {}) for k, v in case["tglobals"].items()})
                       if case.get("tglobals") else env.get_template(case["main"]))
                return tpl.render(**datas[di]), ""
            except Exception as e:  # noqa
                name = type(e).__name__
                for klass in type(e).__mro__:
                    if klass.__name__ in J.ERRCLASS:
                        name = J.ERRCLASS[klass.__name__]
                        break
                return None, name

        def judge(di, res, where):
            text, err = res
            m = jrun.compare(obs_by_d[di], {"out": text, "err": err})
            if m is not None:
                out.append({"case": case["id"], "d": di, "what": f"[{envlabel}/{where}] {m}", "src": srcs})

        # sequential: repeated, interleaved with other data and with the other templates of the case
        others = [t for t in case["tpls"] if t != case["main"]]
        for i, di in enumerate(seq):
            judge(di, render(di), f"sequential#{i}")
            n += 1
            if others and i % 2 == 0:
                try:
                    o = env.get_template(rnd.choice(others))
                    o.render(**datas[di])
                    if envlabel == "sync":
                        str(o.module)          # other users of the template: its default module gets cached
                except Exception:  # noqa
                    pass
        # concurrent threads on the same environment and the same data objects
        if envlabel == "sync" and nthreads:
            results = {}
            old = sys.getswitchinterval()
            sys.setswitchinterval(1e-6)
            try:
                def body(tid):
                    r = []
                    for k in range(3):
                        di = judged[(tid + k) % len(judged)]
                        r.append((di, render(di)))
                    results[tid] = r
                ths = [threading.Thread(target=body, args=(t,)) for t in range(nthreads)]
                for t in ths: t.start()
                for t in ths: t.join(60)
            finally:
                sys.setswitchinterval(old)
            for tid, r in results.items():
                for di, res in r:
                    judge(di, res, f"thread{tid}")
                    n += 1
        after = {di: {k: snap(v) for k, v in d.items()} for di, d in datas.items()}
        if after != before:
            bad = [(di, k) for di in before for k in before[di] if before[di][k] != after[di].get(k)]
            out.append({"case": case["id"], "d": bad[0][0] if bad else 0, "src": srcs,
                        "what": f"[{envlabel}] render modified its data: {bad[:3]} before={before[bad[0][0]][bad[0][1]] if bad else ''} after={after[bad[0][0]][bad[0][1]] if bad else ''}",
                        "mutated": True})
        g_after = {k: snap(v) for k, v in env.globals.items() if not callable(v) or isinstance(v, J.RecFn)}
        if g_after != g_before:
            out.append({"case": case["id"], "d": 0, "src": srcs, "what": f"[{envlabel}] environment globals changed", "mutated": True})
    return out, n


def run(ck):
    quick = ck.tier == "quick"
    cases = jgen.corpus(ck.seed + 29, *((90, 50, 110, 120) if quick else (2500, 1200, 2500, 2500)))
    cases += jgen.aiter_cases(ck.seed + 2929, 40 if quick else 800, start_id=len(cases) + 1)
    for c in cases:
        c["cfg"]["rerender"] = True
    obs, r = jrun.spec_results("C29", cases, name="rerender", timeout=3000)
    ck.add_tlc(r, f"Jinja.tla with the Again action ({len(cases)} programs), invariant C29_Repeatable")
    by_case = {}
    for (cid, di), o in obs.items():
        by_case.setdefault(cid, {})[di] = o
    cmap = {c["id"]: c for c in cases}
    total = 0
    jobs = [(c, by_case[c["id"]], ck.seed * 1000 + c["id"], 8 if quick else 16) for c in cases]
    with ProcessPoolExecutor(max_workers=8) as ex:
        for mism, n in ex.map(_work, jobs, chunksize=4):
            total += n
            for m in mism:
                ck.violation({"kind": "repeat", "case": cmap[m["case"]], "d": m["d"]},
                             f"case {m['case']} data#{m['d']}: {m['what'][:260]} :: {str(m['src'])[:160]}",
                             {"kind": "input-mutated" if m.get("mutated") else "render-not-repeatable"})
    ck.traces += total
    ck.evaluations += total
    ck.extra["renders_compared"] = total
    ck.extra["programs"] = len(cases)
    ck.exhaustive = False
    ck.assumptions += ["thread interleavings are sampled by the OS scheduler with switch interval 1e-6 (best effort)"]


def replay(ck, rec):
    case = rec["case"]["case"]
    obs, r = jrun.spec_results("C29", [case], name="replay", workers=2)
    by = {}
    for (cid, di), o in obs.items():
        by.setdefault(cid, {})[di] = o
    mism, n = _work((case, by[case["id"]], 1, 8))
    for m in mism:
        ck.violation(rec["case"], m["what"][:300], {"kind": "input-mutated" if m.get("mutated") else "render-not-repeatable"})
