"""C14 - template literals denote the same values as Python literals.

Spec: spec/Literals.tla.

  numbers   TLC generates every spelling up to MaxLen over the alphabet
            0 1 7 9 _ . e E x X o O b B + -  (plus a file of boundary / random
            spellings), runs the scanner that models the lexer's float / integer
            / name / operator rules and checks C14_SingleTokenValue,
            C14_NoSilentSplit, C14_PyIntsAreIntegers against Python's own
            grammar of numeric literals.  Every spelling is printed with the
            spec's token split and exact value.  Python compares, per spelling:
            the real `Environment.lex` split, the spec's split, and - when it
            is one number token - the lexer's converted value, the spec's exact
            value, `ast.literal_eval` (the oracle the property names) and the
            value at render time (`compile_expression`).
  strings   TLC generates every sequence of character-class symbols up to
            MaxLen that starts with a quote, checks that the lexer's pipeline
            (string_re, backslashreplace, unicode-escape) decodes like Python
            (C14_PipelineIsPythonDecoding ...), and prints the decoded value as
            units.  Python concretises the symbols, asks the real lexer /
            compiler, and compares with the spec's value and with
            `ast.literal_eval`.
  values    random and boundary Python ints / floats / strings are written in
            repr-style and alternative spellings (bases, underscores, exponent
            forms, \\x \\u \\U \\N octal escapes, adjacent concatenation) and
            must evaluate to exactly that value (Python is the oracle here).
"""
from __future__ import annotations

import ast
import json
import math
import random
import sys
import unicodedata
import warnings
from fractions import Fraction

from .. import core
from ..lit_util import load_local_findings

PID = "C14"
NUM_ALPHABET_FULL = ["0", "1", "7", "8", "9", "_", ".", "e", "E", "x", "X", "o", "O", "b", "B", "+", "-"]
NUM_ALPHABET_QUICK = ["0", "1", "7", "8", "9", "_", ".", "e", "E", "x", "o", "b", "B", "+", "-"]
STR_ALPHABET_QUICK = ["q", "d", "bs", "sp", "n", "x", "o0", "o7", "a", "g", "HH", "NA", "LF"]
STR_ALPHABET_FULL = STR_ALPHABET_QUICK + ["u", "d9"]


def num_cfg(maxlen, from_file, alphabet=NUM_ALPHABET_FULL):
    return f"""CONSTANTS
  Alphabet = {{{", ".join(core.tla_str(c) for c in alphabet)}}}
  MaxLen = {maxlen}
  FromFile = {"TRUE" if from_file else "FALSE"}
  NormalizeFirst = TRUE
SPECIFICATION NumSpec
INVARIANT C14_SingleTokenValue
INVARIANT C14_NoSilentSplit
INVARIANT C14_PyIntsAreIntegers
"""


def str_cfg(maxlen, alphabet, normalize_first=True):
    return f"""CONSTANTS
  Alphabet = {{{", ".join(core.tla_str(c) for c in alphabet)}}}
  MaxLen = {maxlen}
  FromFile = FALSE
  NormalizeFirst = {"TRUE" if normalize_first else "FALSE"}
SPECIFICATION StrSpec
INVARIANT C14_PipelineIsPythonDecoding
INVARIANT C14_EscapesIgnoreNewlineSequence
INVARIANT C14_PipelineRejectsWhatPythonRejects
INVARIANT C14_AdjacentConcat
"""


def literal_envs():
    """The environments a string literal is evaluated in, by the specification's name of the
    newline_sequence.  newline_sequence is the only environment option that reaches the string
    conversion of Lexer.wrap; the other options varied along (keep_trailing_newline, trim_blocks,
    lstrip_blocks) are about template data and must not matter either."""
    import jinja2

    return {
        "n": jinja2.Environment(),
        "rn": jinja2.Environment(newline_sequence="\r\n", keep_trailing_newline=True, trim_blocks=True),
        "r": jinja2.Environment(newline_sequence="\r", lstrip_blocks=True),
    }


# --------------------------------------------------------------------------
# numbers
# --------------------------------------------------------------------------

def spec_number(v):
    """The spec's exact value (digits in a small base / mantissa and exponent digits) as a Python number."""
    if v["kind"] == "int":
        n = 0
        for d in v["digits"]:
            n = n * v["base"] + d
        return n
    if v["kind"] == "float":
        m = 0
        for d in v["mant"]:
            m = m * 10 + d
        e = 0
        for d in v["edigits"]:
            e = e * 10 + d
        e = (-e if v["eneg"] else e) - v["frac"]
        if m == 0:
            return 0.0
        if e > 400:
            return math.inf
        if e < -400 - len(v["mant"]):
            return 0.0
        try:
            return float(Fraction(m) * Fraction(10) ** e)  # correctly rounded
        except OverflowError:
            return math.inf
    return None


def same(a, b):
    return type(a) is type(b) and (a == b or (isinstance(a, float) and math.isnan(a) and math.isnan(b)))


def real_split(env, s):
    """Token split of the spelling inside a variable tag, from the real lexer."""
    toks = list(env.lex("{{ " + s + " }}"))
    inner = toks[2:-2]
    if toks[0][1] != "variable_begin" or toks[-1][1] != "variable_end" or "".join(t[2] for t in inner) != s:
        return None
    out, p = [], 1
    for _, typ, val in inner:
        if typ != "whitespace":
            out.append((typ, p, p + len(val)))
        p += len(val)
    return out


def check_number(ck, env, rec, origin, stats, value=None, signed=None):
    """rec: one line printed by Literals.tla (s, toks, value)."""
    from jinja2.exceptions import TemplateSyntaxError

    s = rec["s"]
    spec = [(t["type"], t["from"], t["to"]) for t in rec["toks"]]
    try:
        real = real_split(env, s)
    except TemplateSyntaxError as e:
        real = ("error", str(e))
    spec_single = len(spec) == 1 and spec[0][0] in ("integer", "float")
    real_single = isinstance(real, list) and len(real) == 1 and real[0][0] in ("integer", "float")
    case = {"kind": "number", "s": s, "origin": origin, "spec": rec}
    if real != spec:
        numeric = isinstance(real, tuple) or any(t in spec for t in spec if t[0] in ("integer", "float") and t not in real) \
            or any(t[0] in ("integer", "float") and t not in spec for t in real)
        if spec_single or real_single or numeric:
            ck.violation(dict(case, real=real), f"spelling {s!r}: the lexer splits it as {real}, the literal syntax "
                         f"(Literals.tla) as {spec}", {"kind": "number-split", "single": "spec" if spec_single else "real" if real_single else "neither"})
        else:
            stats["split_drift"] += 1
            ck.extra.setdefault("drift", [])
            if len(ck.extra["drift"]) < 5:
                ck.extra["drift"].append(f"token split of {s!r}: real {real} / spec {spec} (no number token involved)")
    if not real_single:
        return
    stats["single"] += 1
    with warnings.catch_warnings():
        warnings.simplefilter("ignore")
        try:
            py = ast.literal_eval(s)
        except Exception as e:  # noqa
            ck.violation(case, f"the lexer reads {s!r} as one {real[0][0]} token but Python rejects the spelling ({type(e).__name__})",
                         {"kind": "number-not-python", "type": real[0][0]})
            return
    try:
        tok = [t for t in env.lexer.tokenize("{{ " + s + " }}")][1]
    except Exception as e:  # noqa
        ck.violation(dict(case, python=repr(py)), f"the lexer reads {s!r} as one {real[0][0]} token (Python: {py!r}) but fails to convert it: "
                     f"{type(e).__name__}: {e}", {"kind": "number-value", "type": real[0][0], "error": type(e).__name__})
        return
    if not same(tok.value, py):
        ck.violation(dict(case, lexer=repr(tok.value), python=repr(py)),
                     f"the lexer reads {s!r} as {tok.value!r}, Python as {py!r}", {"kind": "number-value", "type": real[0][0]})
        return
    if spec_single:
        sv = spec_number(rec["value"])
        if not same(sv, py):
            raise core.MachineryError(f"Literals.tla gives {sv!r} for {s!r}, Python {py!r}: the spec misstates Python's literal value")
    if value is not None and not same(py, value):
        raise core.MachineryError(f"spelling generator: {s!r} is {py!r}, wanted {value!r}")
    # the value at render time
    expr = (signed or s)
    want = -py if signed else py
    try:
        got = env.compile_expression(expr)()
        ok = same(got, want)
        how = repr(got)
    except Exception as e:  # noqa
        ok, how = False, f"{type(e).__name__}: {e}"
    stats["rendered"] += 1
    if not ok:
        ck.violation(dict(case, expr=expr, got=how), f"{{{{ {expr} }}}} should evaluate to {want!r} (Python's value of the spelling), got {how}",
                     {"kind": "number-render", "type": real[0][0], "value": "inf" if isinstance(want, float) and math.isinf(want) else "finite",
                      "error": how.split(":")[0] if not how[:1].isdigit() else "value"})
    elif stats["single"] % 997 == 0:
        ck.sample({"spelling": s, "token": real[0][0], "value": repr(py)})


def number_spellings(rng, n):
    """Boundary and random Python numbers in repr-style and alternative spellings: (spelling, value)."""
    out = []
    ints = [0, 1, 7, 9, 10, 255, 256, 2 ** 31 - 1, 2 ** 31, 2 ** 32, 2 ** 63 - 1, 2 ** 63, 2 ** 64, 10 ** 18, 10 ** 19, 2 ** 200,
            10 ** 60 + 7]
    while len(ints) < n:
        ints.append(rng.getrandbits(rng.choice([8, 16, 31, 32, 33, 53, 64, 65, 100, 200])))

    def us(d, k):  # underscores every k digits from the right
        parts = []
        while d:
            parts.append(d[-k:])
            d = d[:-k]
        return "_".join(reversed(parts))

    for v in ints:
        out.append((str(v), v))
        out.append((us(str(v), 3), v))
        out.append((hex(v), v))
        out.append(("0X" + us(format(v, "X"), 4), v))
        out.append(("0x_" + format(v, "x"), v))
        out.append((oct(v), v))
        out.append(("0O" + us(format(v, "o"), 3), v))
        out.append((bin(v), v))
        out.append(("0B" + us(format(v, "b"), 8), v))
        if v == 0:
            out += [("00", 0), ("0_0", 0), ("000_000", 0)]
    fl = [0.0, 1.0, 0.1, 0.5, 1.5, 1e22, 1e23, 1e-7, 5e-324, 2.2250738585072014e-308, 2.225073858507201e-308,
          sys.float_info.max, sys.float_info.min, sys.float_info.epsilon, 9007199254740993.0, 0.30000000000000004,
          1.7976931348623157e308, 4.9e-324, 123456.789, 1e16, 1e15, 123456789012345680.0]
    while len(fl) < n:
        k = rng.random()
        if k < 0.3:
            fl.append(rng.random() * 10 ** rng.randint(-320, 308))
        elif k < 0.6:
            fl.append(float(rng.getrandbits(rng.choice([10, 53, 60, 64]))) / rng.choice([1, 3, 7, 1000]))
        else:
            import struct
            x = struct.unpack("<d", struct.pack("<Q", rng.getrandbits(63)))[0]
            if math.isfinite(x):
                fl.append(x)
    for v in fl:
        r = repr(v)
        out.append((r, v))
        out.append((r.upper() if "e" in r else r, v))
        m, e = f"{v:.17e}".split("e")
        out.append((f"{m}e{int(e):+d}", float(f"{m}e{e}")))
        out.append((f"{m}E{int(e)}", float(f"{m}e{e}")))
        out.append((us(m.split(".")[0], 3) + "." + "_".join([m.split(".")[1][:8], m.split(".")[1][8:]]) + f"e{e}", float(f"{m}e{e}")))
        digs = m.replace(".", "")
        out.append((f"{digs}e{int(e) - 17}", float(f"{digs}e{int(e) - 17}")))
        # several underscores inside one digit run, in the integer part, the fraction and the exponent
        frac = m.split(".")[1]
        out.append((us(digs[:9], 2) + "." + us(frac[:9], 1) + f"e{e}".replace("e", "e") , float(f"{digs[:9]}.{frac[:9]}e{e}")))
        out.append((us(digs[:7], 1) + "e" + ("-" if int(e) < 0 else "") + us(str(abs(int(e))), 1), float(f"{digs[:7]}e{e}")))
        out.append((us(str(abs(int(v)) if abs(v) < 1e18 else 12345678), 2) + ".5_0_0", float(str(abs(int(v)) if abs(v) < 1e18 else 12345678) + ".5")))
        if 1e-5 < abs(v) < 1e15:
            out.append((f"{v:.20f}", float(f"{v:.20f}")))
    # spellings whose Python value overflows / underflows
    out += [("1e309", math.inf), ("1e999", math.inf), ("9e308", math.inf), ("1.8e308", math.inf), ("17_9.8e306", math.inf),
            ("1e-400", 0.0), ("1e-324", 0.0), ("0.0e999", 0.0), ("00.5", 0.5), ("09.5", 9.5), ("1_0.0_1e1_0", 10.01e10),
            ("0e0", 0.0), ("1E+2", 100.0), ("1e-0_1", 0.1),
            ("1_000_000.5", 1000000.5), ("1.000_000_1", 1.0000001), ("1e1_0_0", 1e100), ("1_2_3e2", 12300.0), ("1_2_3.4_5_6e-1_0", 123.456e-10)]
    seen, res = set(), []
    for s, v in out:
        if s not in seen:
            seen.add(s)
            res.append((s, v))
    return res


def run_numbers(ck, env):
    quick = ck.tier == "quick"
    maxlen = 4 if quick else 5
    stats = {"single": 0, "rendered": 0, "split_drift": 0}
    alphabet = NUM_ALPHABET_QUICK if quick else NUM_ALPHABET_FULL
    r = core.run_tlc(PID, "Literals", num_cfg(maxlen, False, alphabet), name="numbers", workers=8, timeout=3000, heap="8g")
    ck.add_tlc(r, f"Literals numbers: all spellings <= {maxlen}")
    if not r.ok:
        return
    lines = set(r.printed())
    expect = sum(len(alphabet) ** k for k in range(1, maxlen + 1))
    if len(lines) != expect:
        raise core.MachineryError(f"Literals.tla printed {len(lines)} spellings, expected {expect}")
    taken = {}
    for line in sorted(lines):
        rec = json.loads(line)
        for t in rec["toks"]:
            taken[t["type"]] = taken.get(t["type"], 0) + 1
        if len(ck.violations) <= 200:
            check_number(ck, env, rec, "exhaustive", stats)
    # vacuity guard: every scanner rule of the spec fired (counted from the behaviours TLC printed)
    ck.extra.setdefault("actions_covered", {}).update({"Lex" + k.capitalize(): v for k, v in taken.items()})
    if any(taken.get(k, 0) == 0 for k in ("float", "integer", "name", "operator")):
        raise core.MachineryError(f"vacuous model: scanner rules never taken: {taken}")
    ck.traces += len(lines)
    ck.extra["number_spellings_exhaustive"] = len(lines)

    # boundary / random values through the same spec (file mode)
    rng = random.Random(ck.seed)
    pairs = number_spellings(rng, 40 if quick else 400)
    gen = core.workdir(PID, "gen")
    f = gen / "spellings.json"
    f.write_text(json.dumps([list(s) for s, _ in pairs]))
    r2 = core.run_tlc(PID, "Literals", num_cfg(0, True), name="numbers-file", env={"SPELLINGS_FILE": str(f)}, workers=4, timeout=3000)
    ck.add_tlc(r2, "Literals numbers: boundary and random values")
    if not r2.ok:
        return
    by = {}
    for line in set(r2.printed()):
        rec = json.loads(line)
        by[rec["s"]] = rec
    missing = [s for s, _ in pairs if s not in by]
    if missing:
        raise core.MachineryError(f"Literals.tla (file mode) did not report {missing[:3]}")
    for i, (s, v) in enumerate(pairs):
        check_number(ck, env, by[s], "values", stats, value=v)
        if v and i % 3 == 0:
            check_number(ck, env, by[s], "values", stats, value=v, signed="-" + s)
    ck.traces += len(pairs)
    ck.extra["number_spellings_from_values"] = len(pairs)
    ck.extra["single_number_tokens"] = stats["single"]
    ck.extra["rendered_number_expressions"] = stats["rendered"]
    ck.extra["split_drift"] = stats["split_drift"]
    ck.evaluations += stats["single"] + stats["rendered"]


# --------------------------------------------------------------------------
# strings
# --------------------------------------------------------------------------
CONCRETE = {
    "q": ["'"], "d": ['"'], "bs": ["\\"], "sp": [" "], "LF": ["\n"], "n": ["n"], "a": ["a"], "x": ["x"], "u": ["u"],
    "o0": ["0"], "o7": ["7", "3", "1"], "d9": ["9", "8"], "g": ["g", "k", "z", "#", "@", "!", "~", ";", "m"],
    "HH": ["e9", "c8", "d9", "9e", "8c", "ee", "9f"],
    "NA": ["\xe9", "\xff", "\u2135", "\u0100", "\U0001f600", "\ud800", "\udfff", "\u2028", "\x85"],
}


def concretise(syms, rng, mode):
    if mode == 0:
        return [CONCRETE[c][0] for c in syms]
    return [rng.choice(CONCRETE[c]) for c in syms]


def unit_text(units, chars):
    out = []
    for u in units:
        k = u["k"]
        if k == "src":
            out.append(chars[u["at"] - 1])
        elif k == "ctl":
            out.append({"LF": "\n", "BEL": "\a", "CR": "\r"}[u["name"]])
        elif k == "oct":
            out.append(chr(int("".join(chars[a - 1] for a in u["ats"]), 8)))
        elif k == "hex":
            out.append(chr(int("".join(chars[a - 1] for a in u["ats"]), 16)))
        else:
            raise core.MachineryError(f"unit {u}")
    return "".join(out)


def jinja_value(env, text):
    from jinja2.exceptions import TemplateSyntaxError

    try:
        return ("value", env.compile_expression(text)())
    except TemplateSyntaxError as e:
        return ("syntax-error", str(e))
    except Exception as e:  # noqa
        return ("raises", f"{type(e).__name__}: {e}")


def python_value(text):
    with warnings.catch_warnings():
        warnings.simplefilter("ignore")
        try:
            return ("value", ast.literal_eval(text))
        except Exception as e:  # noqa
            return ("error", type(e).__name__)


def check_string_case(ck, envs, rec, chars, stats):
    """envs: {newline_sequence name: Environment}; the case is judged in those the spec lists in rec["nls"]
    (all of them unless a raw line break stands inside the quotes)."""
    text = "".join(chars)
    verdict = rec["verdict"]
    case = {"kind": "string", "syms": rec["s"], "chars": chars, "verdict": verdict, "units": rec["units"],
            "nls": rec.get("nls", ["n"])}
    if verdict == "undetermined":
        stats["undetermined"] += 1
        return
    py = python_value(text)
    raw_lf = "\n" in text
    if verdict == "error":
        stats["rejected"] += 1
        if py[0] == "value":
            raise core.MachineryError(f"Literals.tla rejects {text!r} but Python reads it as {py[1]!r}")
        return  # Python assigns no value: nothing for the property to compare
    want = unit_text(rec["units"], chars)
    if py[0] == "value":
        if py[1] != want:
            raise core.MachineryError(f"Literals.tla decodes {text!r} as {want!r}, Python as {py[1]!r}")
        stats["python_agrees"] += 1
    elif not (raw_lf or any(0xD800 <= ord(c) <= 0xDFFF for c in text)):
        # (raw line feeds inside quotes are template syntax only; lone surrogates cannot be fed to literal_eval)
        raise core.MachineryError(f"Literals.tla decodes {text!r} as {want!r}, Python rejects it ({py[1]})")
    for nl in case["nls"]:
        if nl not in envs:
            continue
        got = jinja_value(envs[nl], text)
        stats["judged"] += 1
        if got != ("value", want):
            fp = {"kind": "string-value", "outcome": got[0], "shape": "adjacent" if len(rec["toks"]) > 1 else "single"}
            where = ""
            if nl != "n":
                fp["newline_sequence"] = nl
                where = f" (newline_sequence={envs[nl].newline_sequence!r})"
            ck.violation(dict(case, text=text, want=want, got=list(got), nl=nl),
                         f"string literal expression {text!r} should denote {want!r}, got {got}{where}", fp)
        elif stats["judged"] % 4999 == 0:
            ck.sample({"literal": text, "value": want, "newline_sequence": envs[nl].newline_sequence})


def run_strings(ck, envs):
    quick = ck.tier == "quick"
    maxlen = 5 if quick else 6
    alphabet = STR_ALPHABET_QUICK if quick else STR_ALPHABET_FULL
    r = core.run_tlc(PID, "Literals", str_cfg(maxlen, alphabet), name="strings", workers=8, timeout=3000, heap="8g")
    ck.add_tlc(r, f"Literals strings: all symbol sequences <= {maxlen} x 3 newline sequences")
    if not r.ok:
        return
    # vacuity guard: a pipeline that replaces line feeds AFTER decoding the escapes must break the invariant
    r2 = core.run_tlc(PID, "Literals", str_cfg(4, ["q", "bs", "n", "a"], normalize_first=False), name="strings-mutant",
                      workers=2, timeout=600)
    ck.add_tlc(r2, "Literals strings with newline replacement after decoding (must violate)", expect_ok=False)
    if "C14_EscapesIgnoreNewlineSequence" not in r2.invariant_violated:
        raise core.MachineryError("C14_EscapesIgnoreNewlineSequence is vacuous: replacing line feeds after decoding does not violate it")
    rng = random.Random(ck.seed + 1)
    stats = {"undetermined": 0, "rejected": 0, "judged": 0, "python_agrees": 0}
    lines = set(r.printed())
    if len(lines) < 100:
        raise core.MachineryError("Literals.tla printed no string cases")
    shapes = {"adjacent": 0, "spaced": 0, "escapes": 0, "every_newline_sequence": 0, "default_newline_sequence_only": 0}
    for line in sorted(lines):
        rec = json.loads(line)
        shapes["adjacent"] += len(rec["toks"]) > 1
        shapes["spaced"] += "sp" in rec["s"]
        shapes["escapes"] += any(u["k"] != "src" for u in rec["units"])
        shapes["every_newline_sequence"] += len(rec["nls"]) == 3
        shapes["default_newline_sequence_only"] += rec["nls"] == ["n"]
        if len(ck.violations) > 200:
            continue
        check_string_case(ck, envs, rec, concretise(rec["s"], rng, 0), stats)
        if "NA" in rec["s"] or "HH" in rec["s"] or "g" in rec["s"] or "o7" in rec["s"]:
            # (the concretisation of the symbols does not interact with the newline setting: default environment)
            check_string_case(ck, {"n": envs["n"]}, rec, concretise(rec["s"], rng, 1), stats)
    if not all(shapes.values()):
        raise core.MachineryError(f"vacuous model: string shapes never produced: {shapes}")
    ck.extra.setdefault("actions_covered", {}).update({"LexString:" + k: v for k, v in shapes.items()})
    ck.traces += len(lines)
    ck.extra["string_symbol_sequences"] = len(lines)
    ck.extra["string_cases"] = stats
    ck.evaluations += stats["judged"]


# --------------------------------------------------------------------------
# values -> spellings (Python is the oracle)
# --------------------------------------------------------------------------
def random_string(rng):
    pools = [
        "abc xyz019_", "'\"\\", "\n\r\t\x00\x07\x1b\x7f", "\x80\x85\xa0\xe9\xff", "\u0100\u2028\u2135\ufeff\uffff",
        "\U00010000\U0001f600\U0010ffff", "\ud800\udbff\udfff", "{}%#", "\\n\\x\\u\\N{",
    ]
    n = rng.choice([0, 1, 1, 2, 3, 5, 8, 13])
    return "".join(rng.choice(rng.choice(pools)) for _ in range(n))


def esc_char(c, rng, style):
    o = ord(c)
    if style == "x" and o < 0x100:
        return f"\\x{o:02x}"
    if style == "oct" and o < 0o1000:
        # a 3-digit octal escape is never extended by a following digit
        return f"\\{o:03o}"
    if style == "u" and o < 0x10000:
        return f"\\u{o:04X}"
    if style == "N":
        try:
            return "\\N{" + unicodedata.name(c) + "}"
        except ValueError:
            pass
    return f"\\U{o:08x}"


def spell_string(s, rng, style, quote):
    """One literal spelling of s in the given style."""
    out = []
    for c in s:
        if style == "raw":
            # everything that can be written verbatim is; the rest as in repr
            if c == quote or c == "\\":
                out.append("\\" + c)
            elif c in "\r\n" or (c < " " and c != "\t") or 0xD800 <= ord(c) <= 0xDFFF and False:
                out.append(esc_char(c, rng, "x"))
            else:
                out.append(c)
        elif style == "mixed":
            st = rng.choice(["x", "oct", "u", "N", "U", "raw"])
            if st == "raw" and (c in "\r\n\\" or c == quote or c < " "):
                st = "U"
            out.append(c if st == "raw" else esc_char(c, rng, st))
        else:
            out.append(esc_char(c, rng, style))
    return quote + "".join(out) + quote


def string_spellings(s, rng):
    forms = [repr(s), ascii(s)]
    r = repr(s)
    if r[0] == "'" and '"' not in s:
        forms.append('"' + r[1:-1].replace("\\'", "'") + '"')
    for style in ("x", "oct", "u", "U", "N", "raw", "mixed", "mixed"):
        forms.append(spell_string(s, rng, style, rng.choice("'\"")))
    # adjacent concatenation of 2-3 literals
    for _ in range(3):
        cuts = sorted(rng.randint(0, len(s)) for _ in range(rng.choice([1, 2])))
        parts = [s[a:b] for a, b in zip([0] + cuts, cuts + [len(s)])]
        sep = rng.choice(["", " ", "  ", " \n "])
        forms.append(sep.join(spell_string(p, rng, rng.choice(["raw", "mixed", "x", "U"]), rng.choice("'\"")) for p in parts))
    return forms


def run_values(ck, envs):
    quick = ck.tier == "quick"
    env = envs["n"]
    rng = random.Random(ck.seed + 2)
    values = ["", "'", '"', "\\", "\\\\", "'\"", "\n", "\r\n", "\r", "a\\nb", "\x00", "\x000", "\xe9", "\ud800", "\U0001f600",
              "{{ }}", "{% %}", "\\N{DIGIT ONE}", " ", "tab\t", "\\'", "ends with \\", "\x7f\x80", "caf\xe9 \u2603 \U0001f40d"]
    for _ in range(150 if quick else 3000):
        values.append(random_string(rng))
    n = bad = 0
    for s in values:
        for form in string_spellings(s, rng):
            if "'''" in form or '"""' in form:
                continue  # would start a triple-quoted string in Python: not template syntax
            has_sur = any(0xD800 <= ord(c) <= 0xDFFF for c in form)
            if not has_sur:
                py = python_value(form)
                if py != ("value", s):
                    if "\n" in form or "\r" in form:
                        pass  # raw line break between adjacent literals / inside: not one Python logical line
                    else:
                        raise core.MachineryError(f"spelling generator: {form!r} is {py} in Python, wanted {s!r}")
            if "\r" in form:
                continue  # raw CR / CRLF is normalised by the lexer (newline_sequence): not a Python spelling
            got = jinja_value(env, form)
            n += 1
            # no form has a raw line break inside the quotes (only between adjacent literals), so the value is
            # the same under every newline_sequence (C14_EscapesIgnoreNewlineSequence)
            others = {nl: jinja_value(envs[nl], form) for nl in ("rn", "r")}
            n += len(others)
            if got != ("value", s):
                bad += 1
                ck.violation({"kind": "string-spelling", "value": s, "form": form, "got": list(got)},
                             f"the Python string {s!r} written as {form!r} evaluates to {got}",
                             {"kind": "string-spelling", "outcome": got[0]})
            elif any(g != ("value", s) for g in others.values()):
                bad += 1
                nl, g = next((k, g) for k, g in others.items() if g != ("value", s))
                ck.violation({"kind": "string-spelling", "value": s, "form": form, "got": list(g), "nl": nl},
                             f"the Python string {s!r} written as {form!r} evaluates to {g} in an environment with "
                             f"newline_sequence={envs[nl].newline_sequence!r}",
                             {"kind": "string-spelling", "outcome": g[0], "newline_sequence": nl})
            else:
                # the same through a rendered template
                if n % 5 == 0 and not any(0xD800 <= ord(c) <= 0xDFFF for c in s):
                    out = env.from_string("{{ " + form + " }}|{{ (" + form + ")|length }}").render()
                    if out != f"{s}|{len(s)}":
                        ck.violation({"kind": "string-render", "value": s, "form": form, "got": out},
                                     f"{{{{ {form} }}}} renders {out!r}, expected {s!r}", {"kind": "string-render"})
                if n % 2503 == 0:
                    ck.sample({"value": s, "spelling": form})
    ck.traces += n
    ck.evaluations += n
    ck.extra["string_value_spellings"] = n


def run(ck):
    load_local_findings(ck)
    envs = literal_envs()
    run_numbers(ck, envs["n"])
    run_strings(ck, envs)
    run_values(ck, envs)
    ck.exhaustive = False  # the value -> spelling part is sampled
    ck.extra["excluded_shapes"] = [
        "a backslash followed by a non-ASCII character (an invalid escape in Python, deprecated; jinja2 yields \\xNN text)",
        "numeric escapes that would end inside a two-digit class symbol (symbol abstraction only)",
        "raw CR / CRLF inside a literal (normalised to newline_sequence by the lexer, not a Python spelling)",
        "a raw line feed inside a literal under a non-default newline_sequence (replaced by that sequence: the one thing the "
        "option is documented to change; judged under the default newline_sequence only)",
        "string prefixes (r'', b'', f'', u'') and triple quotes: not template syntax",
        "spellings the lexer reads as several tokens (1., .5, 1.e5, 1__0, 0b2 ...): the property only speaks about single number tokens",
        "complex literals (1j): not template syntax",
    ]
    ck.assumptions += ["ast.literal_eval is the oracle for the value of a spelling (named by the property)",
                       "floats: the spec's <<mantissa, exponent>> is converted by correctly rounded Fraction -> float"]


def replay(ck, rec):
    load_local_findings(ck)
    envs = literal_envs()
    env = envs["n"]
    c = rec["case"]
    if c["kind"] == "number":
        stats = {"single": 0, "rendered": 0, "split_drift": 0}
        check_number(ck, env, c["spec"], c.get("origin", "replay"), stats, signed=c.get("expr") if c.get("expr", c["s"]) != c["s"] else None)
    elif c["kind"] == "string":
        stats = {"undetermined": 0, "rejected": 0, "judged": 0, "python_agrees": 0}
        check_string_case(ck, envs, {"s": c["syms"], "verdict": c["verdict"], "units": c["units"], "toks": [0],
                                    "nls": [c.get("nl", "n")]}, c["chars"], stats)
    else:
        got = jinja_value(envs[c.get("nl", "n")], c["form"])
        if got != ("value", c["value"]):
            ck.violation(c, f"still: {c['form']!r} evaluates to {got}", rec.get("fingerprint"))
