"""C32 - static template introspection over-approximates runtime behaviour.

Spec: spec/Jinja.tla logs every context lookup (`resolve`, with the template whose code
asked) and every template load (`load`, with the loading template).  TLC checks
C32_LookupsSyntactic on every state: lookups only concern names that occur in the asking
template, loads only templates it references by constant name unless it has a dynamic
reference.  Binding: real renders with a recording Context class and a recording loader;
every observed lookup must be reported by meta.find_undeclared_variables of a template of
the set (or be an environment global), every observed load by find_referenced_templates
(or that function must report None for some template that ran); the spec's predicted
lookups and loads must be covered by the real reports as well.
"""
from __future__ import annotations

from concurrent.futures import ProcessPoolExecutor

from .. import core, jgen, jrun
from .. import jast as J


def _work(args):
    core.use_repo()
    import jinja2
    from jinja2 import meta
    from jinja2.runtime import Context
    case, obs_by_d = args
    out, n = [], 0
    looked, loaded = [], []

    class RecContext(Context):
        def resolve_or_missing(self, key):
            looked.append((self.name, key))
            return super().resolve_or_missing(key)

    env, srcs = jrun.make_env(case)
    env.context_class = RecContext
    inner = env.loader

    class RecLoader(jinja2.BaseLoader):
        def get_source(self, environment, template):
            loaded.append(template)
            return inner.get_source(environment, template)
    env.loader = RecLoader()
    reported = {}
    refs = {}
    for name, src in srcs.items():
        ast = env.parse(src)
        reported[name] = set(meta.find_undeclared_variables(ast))
        refs[name] = set(meta.find_referenced_templates(ast))
    all_reported = set().union(*reported.values()) | set(env.globals)
    all_refs = set().union(*refs.values())
    for di, obs in obs_by_d.items():
        if obs["err"] == "EXCLUDED":
            continue
        del looked[:], loaded[:]
        real = jrun.real_render(case, di, env=env)
        n += 1
        # observed lookups must be reported for the template that asked (or be globals)
        for tname, key in looked:
            # the context is shared by every template of an inheritance chain / by blocks of
            # other templates, so the asking template is not known here: use the union
            rep = all_reported
            if key not in rep:
                out.append({"case": case["id"], "d": di, "src": srcs,
                            "what": f"runtime lookup of {key!r} in template {tname!r} is not reported by find_undeclared_variables ({sorted(reported.get(tname, []))})"})
        for t in loaded:
            if t == case["main"]:
                continue
            if t not in all_refs and None not in all_refs:
                out.append({"case": case["id"], "d": di, "src": srcs,
                            "what": f"template {t!r} was loaded at runtime but find_referenced_templates reports {sorted(map(str, all_refs))}"})
        # spec -> code: what the spec says is looked up / loaded must be reported too
        for ev in obs["log"]:
            if ev[0] == "resolve" and ev[2] not in (reported.get(ev[1], set()) | set(env.globals)):
                out.append({"case": case["id"], "d": di, "src": srcs, "spec": True,
                            "what": f"spec looks up {ev[2]!r} in {ev[1]!r}; find_undeclared_variables reports {sorted(reported.get(ev[1], []))}"})
            if ev[0] == "load" and ev[2] not in refs.get(ev[1], set()) and None not in refs.get(ev[1], set()):
                out.append({"case": case["id"], "d": di, "src": srcs, "spec": True,
                            "what": f"spec loads {ev[2]!r} from {ev[1]!r}; find_referenced_templates reports {sorted(map(str, refs.get(ev[1], [])))}"})
    return out, n


def run(ck):
    quick = ck.tier == "quick"
    cases = jgen.corpus(ck.seed + 32, *((150, 90, 90, 60) if quick else (3000, 2000, 2000, 1500)))
    obs, r = jrun.spec_results("C32", cases, name="lookups", timeout=3000)
    ck.add_tlc(r, f"Jinja.tla lookup/load logs ({len(cases)} programs), invariant C32_LookupsSyntactic")
    by_case = {}
    for (cid, di), o in obs.items():
        by_case.setdefault(cid, {})[di] = o
    cmap = {c["id"]: c for c in cases}
    total = 0
    with ProcessPoolExecutor(max_workers=16) as ex:
        for mism, n in ex.map(_work, [(c, by_case[c["id"]]) for c in cases], chunksize=8):
            total += n
            for m in mism:
                ck.violation({"kind": "introspection", "case": cmap[m["case"]], "d": m["d"]},
                             f"case {m['case']} data#{m['d']}: {m['what'][:300]} :: {str(m['src'])[:200]}",
                             {"kind": "spec-lookup-unreported" if m.get("spec") else "runtime-lookup-unreported"})
    ck.traces += total
    ck.evaluations += total
    ck.extra["renders_observed"] = total
    ck.exhaustive = False


def replay(ck, rec):
    case = rec["case"]["case"]
    obs, r = jrun.spec_results("C32", [case], name="replay", workers=2)
    by = {}
    for (cid, di), o in obs.items():
        by.setdefault(cid, {})[di] = o
    mism, n = _work((case, by[case["id"]]))
    for m in mism:
        ck.violation(rec["case"], m["what"][:300], {"kind": "spec-lookup-unreported" if m.get("spec") else "runtime-lookup-unreported"})
