"""Helpers shared by the C14 / C21 / C34 checks (builder: literals/undefined/native)."""
from __future__ import annotations

import json

from . import core


def load_local_findings(ck):
    """Known findings recorded in findings.d/<pid>.json that the maintainer has not merged
    into known_findings.json yet are honoured, too (same matching rule, open entries only)."""
    f = core.VERIF / "findings.d" / f"{ck.pid}.json"
    if not f.exists():
        return
    have = {k["id"] for k in core.load_known()}
    for e in json.loads(f.read_text()):
        if e["property"] == ck.pid and e.get("status") == "open" and e["id"] not in have:
            if all(k["id"] != e["id"] for k in ck._known):
                ck._known.append(e)
