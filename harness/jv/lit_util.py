"""Helpers shared by the C14 / C21 / C34 checks (builder: literals/undefined/native)."""
from __future__ import annotations

import json

from . import core


def load_local_findings(ck):
    """Known findings recorded in findings.d/<pid>.json that the maintainer has not merged
    into known_findings.json yet are honoured, too (same matching rule, open entries only)."""
    f = core.VERIF / "findings.d" / f"{ck.pid}.json"
    if not f.exists():
        return
    have = {k["id"] for k in core.load_known()}
    for e in json.loads(f.read_text()):
        if e["property"] == ck.pid and e.get("status") == "open" and e["id"] not in have:
            if all(k["id"] != e["id"] for k in ck._known):
                ck._known.append(e)


class Watchdog:
    """A mutated jinja2 can make a single operation run (practically) forever, e.g. by
    exponential recursion inside exception handlers.  The watchdog turns that into a
    verdict: when the armed case does not finish within `seconds`, a VIOLATION with the
    case is printed / written and the process exits with code 1.  A repeating timer is
    used because the handler itself can hit the recursion limit when it fires deep in
    the runaway recursion; it is simply tried again a second later."""

    def __init__(self, ck, seconds=30):
        import signal

        self.ck, self.seconds, self.case = ck, seconds, None
        self.signal = signal
        # the limit is on the CPU time of this process (ITIMER_PROF), not on wall time: a runaway recursion burns
        # CPU, while a process that is merely starved on a loaded machine does not - a wall-clock limit raised a
        # false alarm in a thorough run that shared the machine with other runs
        signal.signal(signal.SIGPROF, self._fire)

    def arm(self, case, what, fp):
        self.case = (case, what, fp)
        self.signal.setitimer(self.signal.ITIMER_PROF, self.seconds, 1.0)

    def disarm(self):
        self.signal.setitimer(self.signal.ITIMER_PROF, 0)
        self.case = None

    def _fire(self, signum, frame):
        import os
        import sys

        if self.case is None:
            return
        case, what, fp = self.case
        sys.setrecursionlimit(100000)
        msg = f"{what}: did not finish within {self.seconds} s of CPU time"
        path = self.ck._write_replay(case, msg, fp)
        os.write(1, f"VIOLATION property={self.ck.pid} replay={path}\n  {msg}\n".encode())
        os._exit(1)
