#!/bin/sh
# Offline setup: syntax-check every TLA+ module, verify jinja2 is importable from /repo.
set -e
cd "$(dirname "$0")"
export PYTHONPATH="$PWD/harness:/repo/src" PYTHONDONTWRITEBYTECODE=1
/venv/bin/python -m jv.setup
