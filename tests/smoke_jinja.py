"""Hand-written programs exercising spec/Jinja.tla against real jinja2 (development smoke test)."""
import sys, json
sys.path.insert(0, "/verif/harness")
from jv import core, jast as J, jrun
core.use_repo()
N, C = J.Name, J.Const
X = "<&'\">"
cases = []
def add(body, datas=({},), auto=False, extra=None, **kw):
    tpls = {"main": J.template(body, auto)}
    for n, (b, a) in (extra or {}).items():
        tpls[n] = J.template(b, a)
    cases.append(J.make_case(len(cases) + 1, tpls, "main", list(datas), **kw))

d1 = {"x": J.vint(9), "s": J.vstr(X), "xs": J.vlist([J.vint(1), J.vint(2), J.vint(3)]), "c": J.vbool(True)}
d2 = {"x": J.vint(0), "s": J.vstr("pl"), "xs": J.vlist([]), "c": J.vbool(False)}
D = (d1, d2, {})
# scoping
add([J.If([N("c")], [[J.Set("x", C(1))]]), J.Out(N("x"))], D)
add([J.Set("x", C(0)), J.For(J.TName("i"), N("xs"), [J.Set("x", N("i")), J.Out(N("x"))], else_=[J.Text("E")]), J.Out(N("x"))], D)
add([J.Set("x", C(7)), J.For(J.TName("i"), J.List([C(1)]), [J.Out(N("x")), J.Set("x", C(1)), J.Out(N("x"))]), J.Out(N("x"))], D)
add([J.With([("a", C(2)), ("b", N("x"))], [J.Out(N("a")), J.Out(N("b"))]), J.Out(N("a"))], D)
add([J.Macro("m", ["a", "b"], [N("x")], [J.Out(N("a")), J.Text("|"), J.Out(N("b")), J.Text("|"), J.Out(N("y"))]),
     J.Set("y", C(5)), J.Out(J.Call(N("m"), [C(1)])), J.Out(J.Call(N("m"), [C(1), C(2)])), J.Out(J.Call(N("m"), [], [("b", C(3))]))], D)
add([J.SetBlock("t", [J.Text("a"), J.Set("z", C(1)), J.Out(N("z")), J.Out(N("s"))]), J.Out(N("t")), J.Text("|"), J.Out(N("z"))], D, auto=True)
add([J.SetBlock("t", [J.Text("a"), J.Out(N("s"))]), J.Out(N("t")), J.Out(J.Concat(N("t"), N("s")))], D, auto=False)
# loops
add([J.For(J.TName("i"), N("xs"), [J.Out(J.Getattr(N("loop"), "index")), J.Out(J.Getattr(N("loop"), "last")), J.Out(J.Getattr(N("loop"), "nextitem")), J.Text(",")], filter=J.Cmp(N("i"), ("gt", C(1))), else_=[J.Text("none")])], D)
add([J.For(J.TName("i"), N("xs"), [J.If([J.Cmp(N("i"), ("eq", C(2)))], [[J.BREAK]]), J.Out(N("i"))], else_=[J.Text("E")])], D)
add([J.Set("ns", J.Call(N("namespace"), [], [("c", C(0))])), J.For(J.TName("i"), N("xs"), [J.Set(J.TNs("ns", "c"), J.Bin("+", J.Getattr(N("ns"), "c"), N("i")))]), J.Out(J.Getattr(N("ns"), "c"))], D)
tree = J.vlist([J.vdict([(J.vstr("n"), J.vint(1)), (J.vstr("k"), J.vlist([J.vdict([(J.vstr("n"), J.vint(2)), (J.vstr("k"), J.vlist([]))])]))])])
add([J.For(J.TName("t"), N("tree"), [J.Out(J.Getattr(N("t"), "n")), J.Out(J.Getattr(N("loop"), "depth")), J.Text("("), J.Out(J.Call(N("loop"), [J.Getattr(N("t"), "k")])), J.Text(")")], recursive=True)], ({"tree": tree},), auto=True)
# call block / caller
add([J.Macro("m", ["a"], [], [J.Text("["), J.Out(J.Call(N("caller"), [N("a")])), J.Text("]")]),
     J.CallBlock(N("m"), [N("s")], [], [J.Out(N("v")), J.Out(N("x"))], params=["v"])], D, auto=True)
# expressions
add([J.Out(J.Bin("**", J.Bin("**", C(2), C(3)), C(2))), J.Text(" "), J.Out(J.Bin("//", J.Neg(C(7)), C(2))), J.Text(" "), J.Out(J.Bin("%", J.Neg(C(7)), C(3))),
     J.Text(" "), J.Out(J.Cmp(C(1), ("lt", C(2)), ("lt", N("x")))), J.Text(" "), J.Out(J.Cond(C(0), C(1))), J.Out(J.Or(N("q"), C(3))), J.Out(J.And(N("x"), N("s")))], D)
add([J.Out(J.Bin("+", N("x"), N("s")))], D)
add([J.Out(J.Bin("//", C(1), N("x")))], D)
add([J.Out(J.Filter(N("xs"), "join", [N("s")])), J.Out(J.Filter(J.List([N("s"), J.Filter(N("s"), "safe")]), "join", [C("<")]))], D, auto=True)
add([J.Out(J.Filter(N("q"), "default", [N("s")])), J.Out(J.Filter(N("xs"), "first")), J.Out(J.Test(N("q"), "defined")), J.Out(J.Filter(N("xs"), "length"))], D, auto=True)
# attribute / item
objs = {"o1": {"attrs": {"a": J.vint(1)}, "items": {"a": J.vint(2), "b": J.vint(3)}}}
add([J.Out(J.Getattr(N("o"), "a")), J.Out(J.Getitem(N("o"), C("a"))), J.Out(J.Getattr(N("o"), "b")), J.Out(J.Getitem(N("o"), C("b"))), J.Out(J.Getattr(N("o"), "z")), J.Out(J.Getattr(J.Getattr(N("o"), "z"), "y"))],
    ({"o": J.vobj("o1")},), objs=objs)
# inheritance
root = [J.Text("R["), J.Block("a", [J.Text("ra"), J.Block("n", [J.Text("rn")])]), J.Text("|"), J.Block("b", [J.Text("rb"), J.Out(N("x"))]), J.Text("]")]
mid = [J.Extends(C("root")), J.Text("X"), J.Set("x", C(4)), J.Block("a", [J.Text("ma("), J.Out(J.Call(N("super"))), J.Text(")")]), J.Block("zz", [J.Text("never")])]
leaf = [J.Extends(C("mid")), J.Block("a", [J.Text("la("), J.Out(J.Call(N("super"))), J.Text(")("), J.Out(J.Call(J.Getattr(N("super"), "super"))), J.Text(")"), J.Out(J.Call(J.Getattr(N("self"), "b")))]), J.Block("n", [J.Text("ln"), J.Out(N("s"))])]
add(leaf, D, auto=True, extra={"root": (root, True), "mid": (mid, True)})
add([J.If([N("c")], [[J.Extends(C("root"))]]), J.Text("T"), J.Block("a", [J.Text("ca")])], D, extra={"root": (root, False)})
add([J.Extends(C("req")), J.Block("r", [J.Text("ok")])], D, extra={"req": ([J.Block("r", [], required=True)], False)})
add([J.Extends(C("req"))], D, extra={"req": ([J.Block("r", [], required=True)], False)})
add([J.For(J.TName("i"), N("xs"), [J.Block("a", [J.Out(N("i")), J.Out(N("x"))]), J.Block("b", [J.Out(N("i")), J.Out(N("x"))], scoped=True)])], D)
# include / import
inc = [J.Out(N("i")), J.Out(N("x")), J.Out(N("g")), J.Set("x", C(100))]
add([J.For(J.TName("i"), N("xs"), [J.Include(C("inc"))]), J.Include(C("inc"), with_context=False), J.Include(C("nope"), ignore_missing=True), J.Include(J.List([C("nope"), C("inc")])), J.Out(N("x"))], D, extra={"inc": (inc, False)}, globals_={"g": J.vstr("G")})
mod = [J.Macro("m", [], [], [J.Out(N("x")), J.Out(N("g"))]), J.Set("v", C(1)), J.Set("_p", C(2)), J.Import(C("inc2"), "other"), J.Text("body")]
add([J.Import(C("mod"), "m"), J.Out(J.Call(J.Getattr(N("m"), "m"))), J.Out(J.Getattr(N("m"), "v")), J.Out(J.Getattr(N("m"), "_p")), J.Out(J.Getattr(N("m"), "other")),
     J.Import(C("mod"), "mc", with_context=True), J.Out(J.Call(J.Getattr(N("mc"), "m"))), J.FromImport(C("mod"), [("m", "mm"), ("nope", "nope")]), J.Out(J.Call(N("mm"))), J.Out(N("nope")), J.Out(N("m"))],
    D, extra={"mod": (mod, False), "inc2": ([J.Set("q", C(1))], False)}, globals_={"g": J.vstr("G")})
add([J.Include(C("nope"))], D)
# autoescape block
add([J.Autoescape(C(True), [J.Out(N("s")), J.Out(J.Concat(N("s"), J.Filter(N("s"), "safe")))]), J.Out(N("s")), J.Autoescape(C(False), [J.Out(N("s"))])], D)

# stateful helpers and slices
add([J.Set("cy", J.Call(N("cycler"), [C(1), C("b<")])), J.For(J.TName("i"), N("xs"), [J.Out(J.Getattr(N("cy"), "current")), J.Out(J.Call(J.Getattr(N("cy"), "next"))), J.Out(J.Call(J.Getattr(N("loop"), "changed"), [J.Bin("%", N("i"), C(2))])), J.Text(",")]),
     J.Out(J.Call(J.Getattr(N("cy"), "reset"))), J.Out(J.Getattr(N("cy"), "current")),
     J.Set("jn", J.Call(N("joiner"), [N("s")])), J.For(J.TName("i"), N("xs"), [J.Out(J.Call(N("jn"))), J.Out(N("i"))]), J.Set("j2", J.Call(N("joiner"))), J.Out(J.Call(N("j2"))), J.Out(J.Call(N("j2")))], D, auto=True)
add([J.Out(J.Slice(N("xs"), C(1))), J.Out(J.Slice(N("xs"), None, J.Neg(C(1)))), J.Out(J.Slice(N("xs"), C(1), C(9))), J.Out(J.Slice(N("xs"), J.Neg(C(9)), C(2))), J.Out(J.Slice(N("xs"), C(2), C(1))), J.Out(J.Slice(N("q"), C(1)))], D)
dd = J.vdict([(J.vstr("a"), J.vint(1)), (J.vstr("b<"), J.vlist([J.vint(5)]))])
add([J.For(J.TTuple([J.TName("k"), J.TName("v")]), J.Call(J.Getattr(N("dd"), "items")), [J.Out(N("k")), J.Text("="), J.Out(N("v")), J.Text(";")]),
     J.Out(J.Filter(J.Call(J.Getattr(N("dd"), "keys")), "join", [C(",")])), J.Out(J.Filter(J.Call(J.Getattr(N("dd"), "values")), "list")),
     J.Out(J.Call(J.Getattr(N("dd"), "get"), [C("a")])), J.Out(J.Call(J.Getattr(N("dd"), "get"), [C("zz"), N("s")])), J.Out(J.Call(J.Getattr(N("dd"), "get"), [C("zz")])),
     J.Set("cy", J.Call(N("cycler"), [C(1), C(2)])), J.Do(J.Call(J.Getattr(N("cy"), "next"))), J.Out(J.Getattr(N("cy"), "current"))], ({"dd": dd, "s": J.vstr(X)},), auto=True)
# autoescape blocks: lexical vs dynamic mode, macros across modes, blocks in regions, break out of a region
AE = J.Autoescape
mac = lambda n, body: J.Macro(n, ["p"], [], body)
DA_ = ({"s": J.vstr(X), "f": J.vbool(False), "t": J.vbool(True)}, {"s": J.vstr("a<b"), "f": J.vbool(True), "t": J.vbool(False)})
for auto in (True, False):
    add([mac("inner", [J.Text("<i>"), J.Out(N("p"))]), mac("outer", [J.Out(J.Call(N("inner"), [N("p")]))]),
         AE(C(not auto), [J.Out(J.Call(N("outer"), [N("s")])), J.Out(N("s"))]), J.Text("|"), J.Out(J.Call(N("outer"), [N("s")]))], DA_, auto=auto)
    add([AE(N("f"), [J.Out(N("s")), mac("m", [J.Out(N("p")), J.Out(J.Concat(N("p"), C("<")))]), J.Out(J.Call(N("m"), [N("s")])),
                     J.SetBlock("sb", [J.Out(N("s"))]), J.Out(N("sb")), AE(C(True), [J.Out(N("s"))])]),
         J.Out(J.Call(N("m"), [N("s")])), J.Out(N("sb")), J.Out(N("s"))], DA_, auto=auto)
    add([AE(C(not auto), [J.Out(N("s")), J.Block("b", [J.Out(N("s")), J.Block("c", [J.Out(N("s"))])])]), J.Block("d", [J.Out(N("s")), J.Out(J.Call(J.Getattr(N("self"), "b")))]),
         AE(N("t"), [J.Block("e", [J.Out(N("s"))]), J.Out(J.Call(J.Getattr(N("self"), "d")))])], DA_, auto=auto)
    add([mac("m", [J.Text("<b>"), J.Out(N("p"))]), J.For(J.TName("i"), J.List([C(1), C(2)]), [AE(C(not auto), [J.Out(N("s")), J.If([C(True)], [[J.BREAK]])])]),
         J.Out(J.Call(N("m"), [N("s")])), J.Out(J.Filter(J.List([N("s"), J.Call(N("m"), [C(1)])]), "join", [C(",")]))], DA_, auto=auto)
    add([J.Import(C("lib.txt"), "L"), J.Out(J.Call(J.Getattr(N("L"), "mp"), [N("s")])), AE(C(not auto), [J.Out(J.Call(J.Getattr(N("L"), "mp"), [N("s")])), J.Include(C("lib.txt"))]), J.Include(C("lib.txt"))],
        DA_, auto=auto, extra={"lib.txt": ([mac("mp", [J.Text("<m>"), J.Out(N("p"))]), J.Text("<lib>"), J.Out(N("s"))], not auto)})
# a child template renders nothing outside of blocks
base = ([J.Text("["), J.Block("b", [J.Text("B0")]), J.Text("]")], True)
inc = ([J.Text("INC")], True)
for dyn in (False, True):
    ext = J.If([N("t")], [[J.Extends(C("base"))]]) if dyn else J.Extends(C("base"))
    add([ext, J.Macro("m", [], [], [J.Text("M"), J.Out(J.Call(N("caller")))]), J.Include(C("inc")), J.FilterBlock("string", [J.Text("abc")]),
         J.CallBlock(N("m"), [], [], [J.Text("C")]), J.Out(J.Bin("//", C(1), C(0))) if not dyn else J.Out(N("s")),
         J.For(J.TName("i"), J.List([C(1)]), [J.Text("F"), J.Block("b", [J.Text("B1"), J.Include(C("inc")), J.FilterBlock("string", [J.Text("x")])]), J.Include(C("inc"))]),
         J.With([("w", C(1))], [J.Block("c", [J.Text("C1")])]), J.SetBlock("sb", [J.Text("S"), J.Include(C("inc")), J.FilterBlock("string", [J.Text("y")])]),
         J.Block("d", [J.Out(N("sb"))])], DA_, auto=True, extra={"base": base, "inc": inc})
res, r = jrun.spec_results("SMOKE", cases)
print("TLC:", r.distinct, "states", round(r.wall, 1), "s ok=", r.ok, r.invariant_violated)
bad = 0
for c in cases:
    for di in range(1, len(c["datas"]) + 1):
        obs = res.get((c["id"], di))
        if obs is None:
            print("NO RESULT", c["id"], di); bad += 1; continue
        real = jrun.real_render(c, di)
        m = jrun.compare(obs, real)
        tag = "EXCL" if obs["err"] == "EXCLUDED" else ("ok" if m is None else "DIFF")
        if tag != "ok":
            bad += tag == "DIFF"
            print(tag, c["id"], di, jrun.sources(c)["main"][:150], "=>", m, "| spec:", obs["err"] or J.expected_text(obs["out"]), "| real:", real["err"] or real["out"])
print("cases", len(cases), "bad", bad)
